//! C27 correspondence + oracle: the real `PriceFeedPrice::is_market_open`,
//! `MarketStatus::openness`, `last_update_diff_secs`.
use gmsol_utils::price::feed_price::PriceFeedPrice;
use gmsol_utils::price::market_status::{MarketOpenness, MarketStatusFlagContainer};
use hcommon::*;
use num_bigint::BigInt;

/// build a stored price with arbitrary raw bytes for status / flags (the struct is `Pod`)
fn mk(status: u8, price_flags: u8, diff: u32, ts: i64) -> PriceFeedPrice {
    let mut p = PriceFeedPrice::new(8, ts, 1, 1, 1, diff);
    let b = bytemuck::bytes_of_mut(&mut p);
    // layout (repr(C)): decimals u8 @0, flags u8 @1, market_status_value u8 @2, padding @3, last_update_diff u32 @4, ts i64 @8
    b[1] = price_flags;
    b[2] = status;
    p
}

fn exec_inner(t: &[&str]) -> Option<String> {
    if t.len() < 2 || t[0] != "mopen" { return None; }
    Some(match (t[1], t.len()) {
        ("open", 9) => {
            let st: u8 = t[2].parse().ok()?; let pf: u8 = t[3].parse().ok()?; let diff: u32 = t[4].parse().ok()?;
            let ts: i64 = t[5].parse().ok()?; let now: i64 = t[6].parse().ok()?; let timeout: u32 = t[7].parse().ok()?; let pol: u8 = t[8].parse().ok()?;
            let p = mk(st, pf, diff, ts);
            if p.ts() != ts { return Some("layout-mismatch".into()); }
            (p.is_market_open(now, timeout, MarketStatusFlagContainer::from_value(pol)) as u8).to_string()
        }
        ("openness", 4) => {
            let st: u8 = t[2].parse().ok()?; let pol: u8 = t[3].parse().ok()?;
            let p = mk(st, 0, 0, 0);
            match p.market_status().openness(MarketStatusFlagContainer::from_value(pol)) {
                MarketOpenness::Open => "Open", MarketOpenness::Closed => "Closed", MarketOpenness::Skip => "Skip" }.into()
        }
        ("cfg", 5) => {
            use gmsol_utils::price::market_status::MarketStatusFlag as F;
            use gmsol_utils::token_config::FeedConfig;
            const FLAGS: [F; 6] = [F::AllowUnknown, F::AllowPreMarket, F::HaltRegularHours, F::AllowPostMarket, F::AllowOvernight, F::AllowClosed];
            let pol: u8 = t[2].parse().ok()?; let st: u8 = t[4].parse().ok()?;
            if pol >= 64 { return None; }
            let key = |n: u64| { let mut b = [0u8; 32]; b[..8].copy_from_slice(&n.to_le_bytes()); anchor_lang::prelude::Pubkey::new_from_array(b) };
            let mut feed_no: u64 = 1;
            let mut c = FeedConfig::new(key(1));
            for (i, f) in FLAGS.iter().enumerate() { if pol >> i & 1 == 1 { c.set_market_status_flag(*f, true); } }
            if t[3] != "-" { for op in t[3].split(',') {
                let (k, rest) = op.split_at(1);
                match k {
                    "f" => { let n: u64 = rest.parse().ok()?; c = c.with_feed(key(n)); feed_no = n; }
                    "t" => { c = c.with_timestamp_adjustment(rest.parse().ok()?); }
                    "d" => { let n: u32 = rest.parse().ok()?; c = c.with_max_deviation_factor(if n == 0 { None } else { Some(n as u128 * FeedConfig::RATIO_MULTIPLIER) }).ok()?; }
                    "s" => { let (i, b) = rest.split_once(':')?; let i: usize = i.parse().ok()?; if i >= 6 || (b != "0" && b != "1") { return None; } c.set_market_status_flag(FLAGS[i], b == "1"); }
                    _ => return None,
                }
            } }
            if *c.feed() != key(feed_no) { return Some("feed-lost".into()); }
            let ratio = c.max_deviation_factor().map(|f| f / FeedConfig::RATIO_MULTIPLIER).unwrap_or(0);
            let o = match mk(st, 0, 0, 0).market_status().openness(c.market_status_flags()) { MarketOpenness::Open => "Open", MarketOpenness::Closed => "Closed", MarketOpenness::Skip => "Skip" };
            format!("{feed_no} {} {ratio} {} {o}", c.timestamp_adjustment(), c.market_status_flags().into_value())
        }
        ("secs", 4) => {
            let pf: u8 = t[2].parse().ok()?; let diff: u32 = t[3].parse().ok()?;
            match mk(0, pf, diff, 0).last_update_diff_secs() { Some(d) => format!("ok {d}"), None => "none".into() }
        }
        _ => return None,
    })
}

fn exec(req: &str) -> String {
    let t: Vec<&str> = req.split(' ').collect();
    match std::panic::catch_unwind(|| exec_inner(&t)) { Ok(Some(s)) => s, Ok(None) => "bad-op".into(), Err(_) => "panic".into() }
}

/// status byte → (is a named status, index of the governing policy bit, inverted?)
fn policy_open(status: u8, pol: u8) -> Option<bool> {
    let b = |i: u8| pol >> i & 1 == 1;
    match status { 1 => Some(b(0)), 2 => Some(b(1)), 3 => Some(!b(2)), 4 => Some(b(3)), 5 => Some(b(4)), 6 => Some(b(5)), _ => None }
}

/// The property in exact integer arithmetic (no saturation), independent of the model.
fn oracle(req: &str, resp: &str) -> Result<Option<&'static str>, String> {
    if resp == "panic" { return Err("panicked".into()); }
    let t: Vec<&str> = req.split(' ').collect();
    match t[1] {
        "open" => {
            let st: u8 = t[2].parse().unwrap(); let pf: u8 = t[3].parse().unwrap(); let diff: u64 = t[4].parse().unwrap();
            let ts: BigInt = t[5].parse().unwrap(); let now: BigInt = t[6].parse().unwrap(); let timeout: BigInt = t[7].parse().unwrap(); let pol: u8 = t[8].parse().unwrap();
            let not_closed = policy_open(st, pol).unwrap_or(true);
            let open_flag = pf & 1 == 1;
            let tracking = pf & 2 == 2;
            let secs = if pf & 4 == 4 { diff } else { diff.div_ceil(1_000_000_000) };
            let report_age = &now - &ts;
            let update_age = &report_age + BigInt::from(secs);
            let fresh = !tracking || (report_age <= timeout && update_age <= timeout);
            let expect = not_closed && open_flag && fresh;
            if resp != (expect as u8).to_string() { return Err(format!("is_market_open = {resp}, exact-integer specification says {}", expect as u8)); }
            Ok(Some(if !not_closed { "closed-by-policy" } else if !open_flag { "no-open-flag" } else if !tracking { "open.untracked" } else if fresh { "open.fresh" } else if report_age > timeout { "stale.report" } else { "stale.last-update" }))
        }
        "openness" => {
            let st: u8 = t[2].parse().unwrap(); let pol: u8 = t[3].parse().unwrap();
            let e = match policy_open(st, pol) { None => "Skip", Some(true) => "Open", Some(false) => "Closed" };
            if resp != e { return Err(format!("openness = {resp}, policy table says {e}")); }
            Ok(Some("openness"))
        }
        "secs" => {
            let pf: u8 = t[2].parse().unwrap(); let diff: u64 = t[3].parse().unwrap();
            let e = if pf & 2 == 0 { "none".to_string() } else if pf & 4 == 4 { format!("ok {diff}") } else { format!("ok {}", (diff + 999_999_999) / 1_000_000_000) };
            if resp != e { return Err(format!("last_update_diff_secs = {resp}, expected {e}")); }
            Ok(Some("secs"))
        }
        _ => Ok(None),
    }
}

fn ts_gen(r: &mut Rng) -> i64 {
    match r.below(8) {
        0 => i64::MIN + r.below(4) as i64, 1 => i64::MAX - r.below(4) as i64, 2 => r.below(5) as i64 - 2,
        3 => 1_700_000_000 + r.below(100_000_000) as i64, 4 => i64::MIN + (r.next() >> 31) as i64, 5 => i64::MAX - (r.next() >> 31) as i64,
        _ => r.next() as i64,
    }
}
fn u32_gen(r: &mut Rng) -> u32 {
    match r.below(7) { 0 => 0, 1 => u32::MAX - r.below(3) as u32, 2 => r.below(100) as u32, 3 => 1_000_000_000 * r.below(5) as u32 + r.below(3) as u32 - 0, 4 => 999_999_999 + r.below(3) as u32, _ => r.next() as u32 }
}

fn gen_req(r: &mut Rng) -> String {
    if r.chance(1, 12) {
        // a history on one feed configuration: flags set, then feed / adjustment / ratio switched, in any order
        let n = r.range(1, 7);
        let ops: Vec<String> = (0..n).map(|_| match r.below(5) { 0 | 1 => format!("s{}:{}", r.below(6), r.below(2)), 2 => format!("f{}", r.range(2, 50)), 3 => format!("t{}", r.below(100)), _ => format!("d{}", r.below(1000)) }).collect();
        return format!("mopen cfg {} {} {}", r.below(64), ops.join(","), r.below(8));
    }
    match r.below(10) {
        0 => format!("mopen openness {} {}", if r.chance(4, 5) { r.below(8) } else { r.below(256) }, r.below(256)),
        1 => format!("mopen secs {} {}", r.below(8), u32_gen(r)),
        _ => {
            let st = if r.chance(5, 6) { r.below(7) } else { r.below(256) };
            // price flags: mostly Open set; tracking on 3/4 of the time
            let pf = (if r.chance(7, 8) { 1 } else { 0 }) | (if r.chance(3, 4) { 2 } else { 0 }) | (if r.chance(1, 2) { 4 } else { 0 }) | (if r.chance(1, 20) { (r.below(32) as u64) << 3 } else { 0 });
            // policy: mostly one that keeps this status open
            let pol = if r.chance(2, 3) { (match st { 1 => 1u64, 2 => 2, 3 => 0, 4 => 8, 5 => 16, 6 => 32, _ => 0 }) | (r.below(64) & !4) } else { r.below(256) };
            let secs_mode = pf & 4 == 4;
            let timeout = u32_gen(r);
            let ts = ts_gen(r);
            // `now` relative to ts: straddling ts + timeout − diff, ts + timeout, and the i64 limits
            let diff = u32_gen(r);
            let d_secs = if secs_mode { diff as i128 } else { (diff as i128 + 999_999_999) / 1_000_000_000 };
            let now: i128 = match r.below(8) {
                0 => ts as i128 + timeout as i128 - d_secs + r.below(3) as i128 - 1,
                1 => ts as i128 + timeout as i128 + r.below(3) as i128 - 1,
                2 => ts as i128 + r.below(3) as i128 - 1,
                3 => ts as i128 - r.below(1 << 33) as i128,
                4 => ts as i128 + r.below(1 << 33) as i128,
                _ => ts_gen(r) as i128,
            };
            let now = now.clamp(i64::MIN as i128, i64::MAX as i128);
            format!("mopen open {st} {pf} {diff} {ts} {now} {timeout} {pol}")
        }
    }
}

fn main() {
    let cli = cli();
    let mut out = Out::new();
    std::panic::set_hook(Box::new(|_| {}));
    let reqs: Vec<String> = if cli.mode == "replay" { read_requests(cli.file.as_deref().unwrap()) } else {
        let mut r = Rng::new(cli.seed);
        (0..cli.n).map(|_| gen_req(&mut r)).collect()
    };
    for req in reqs {
        let resp = exec(&req);
        out.stat(&format!("op.{}", req.split(' ').nth(1).unwrap_or("?")));
        out.stat(&format!("resp.{}", resp.split(' ').next().unwrap_or("")));
        if req.starts_with("mopen cfg ") {
            // independent oracle: the policy after the history = the initial policy with only the `s` ops applied,
            // and the verdict is the one that policy gives
            let t: Vec<&str> = req.split(' ').collect();
            let f: Vec<&str> = resp.split(' ').collect();
            if t.len() == 5 && f.len() == 5 {
                let mut pol: u8 = t[2].parse().unwrap_or(0);
                if t[3] != "-" { for op in t[3].split(',') { if let Some(rest) = op.strip_prefix('s') { if let Some((i, b)) = rest.split_once(':') { let i: u8 = i.parse().unwrap_or(0); if b == "1" { pol |= 1 << i } else { pol &= !(1 << i) } } } } }
                if f[3] != pol.to_string() { out.oracle_fail(&format!("the market-status policy of a feed changed without set_market_status_flag (expected flags {pol}, stored {})", f[3]), &req); }
                let st: u8 = t[4].parse().unwrap_or(0);
                let want = match policy_open(st, pol) { Some(true) => "Open", Some(false) => "Closed", None => if st == 0 { "Closed" } else { "?" } };
                if want != "?" && policy_open(st, pol).is_some() && f[4] != want { out.oracle_fail("openness verdict differs from the policy set for this feed", &req); }
                out.stat("oracle.cfg");
            } else if resp != "bad-op" { out.oracle_fail(&format!("feed configuration history failed: {resp}"), &req); }
            out.case_nt(&req, &resp, resp.ends_with("Open"));
            continue;
        }
        if resp != "bad-op" {
            match std::panic::catch_unwind(|| oracle(&req, &resp)) {
                Ok(Ok(Some(tag))) => { out.stat("oracle.checked"); out.stat(&format!("class.{tag}")); }
                Ok(Ok(None)) => out.stat("oracle.none"),
                Ok(Err(what)) => out.oracle_fail(&what, &req),
                Err(_) => out.oracle_fail("oracle panicked", &req),
            }
        }
        let nt = resp == "1" || resp == "Open" || (resp.starts_with("ok ") && resp != "ok 0");
        out.case_nt(&req, &resp, nt);
    }
    out.finish();
}
