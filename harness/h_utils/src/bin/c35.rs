//! C35 correspondence + oracle: the real `gmsol_utils::fixed_str` helpers for several MAX_LEN.
use gmsol_utils::fixed_str::{bytes_to_fixed_str, fixed_str_to_bytes, FixedStrError};
use hcommon::*;

const LENS: [usize; 8] = [1, 2, 4, 5, 8, 16, 32, 64];

fn unhex(s: &str) -> Option<Vec<u8>> {
    if s == "_" { return Some(vec![]); }
    if s.is_empty() || s.chars().any(|c| !matches!(c, '0'..='9' | 'a'..='f')) { return None; }
    hex::decode(s).ok()
}
fn tohex(b: &[u8]) -> String { if b.is_empty() { "_".into() } else { hex::encode(b) } }

fn err_tag(e: &FixedStrError) -> &'static str {
    match e {
        FixedStrError::ExceedMaxLengthLimit => "err TooLong",
        FixedStrError::InvalidFormat => "err Format",
        FixedStrError::Utf8(_) => "err Utf8",
    }
}

fn write_l<const L: usize>(name: &str) -> Result<Vec<u8>, FixedStrError> {
    fixed_str_to_bytes::<L>(name).map(|b| b.to_vec())
}
fn read_l<const L: usize>(buf: &[u8]) -> Result<Vec<u8>, FixedStrError> {
    let arr: [u8; L] = buf.try_into().expect("length checked");
    bytes_to_fixed_str::<L>(&arr).map(|s| s.as_bytes().to_vec())
}
fn write(l: usize, name: &str) -> Option<Result<Vec<u8>, FixedStrError>> {
    Some(match l { 1 => write_l::<1>(name), 2 => write_l::<2>(name), 4 => write_l::<4>(name), 5 => write_l::<5>(name),
        8 => write_l::<8>(name), 16 => write_l::<16>(name), 32 => write_l::<32>(name), 64 => write_l::<64>(name), _ => return None })
}
fn read(l: usize, buf: &[u8]) -> Option<Result<Vec<u8>, FixedStrError>> {
    if buf.len() != l { return None; }
    Some(match l { 1 => read_l::<1>(buf), 2 => read_l::<2>(buf), 4 => read_l::<4>(buf), 5 => read_l::<5>(buf),
        8 => read_l::<8>(buf), 16 => read_l::<16>(buf), 32 => read_l::<32>(buf), 64 => read_l::<64>(buf), _ => return None })
}
fn show(r: Result<Vec<u8>, FixedStrError>) -> String {
    match r { Ok(b) => format!("ok {}", tohex(&b)), Err(e) => err_tag(&e).into() }
}

fn exec_inner(t: &[&str]) -> Option<String> {
    if t.len() != 4 || t[0] != "fstr" { return None; }
    let l: usize = t[2].parse().ok()?;
    let bytes = unhex(t[3])?;
    match t[1] {
        "tobytes" => { let name = std::str::from_utf8(&bytes).ok()?; Some(show(write(l, name)?)) }
        "frombytes" => Some(show(read(l, &bytes)?)),
        "roundtrip" => {
            let name = std::str::from_utf8(&bytes).ok()?;
            match write(l, name)? { Ok(b) => Some(show(read(l, &b)?)), Err(e) => Some(format!("w{}", err_tag(&e))) }
        }
        _ => None,
    }
}

fn exec(req: &str) -> String {
    let t: Vec<&str> = req.split(' ').collect();
    match std::panic::catch_unwind(|| exec_inner(&t)) { Ok(Some(s)) => s, Ok(None) => "bad-op".into(), Err(_) => "panic".into() }
}

/// The property, on the real code and independent of the model: an accepted name is read back
/// unchanged; a name longer than the field is rejected; a read returns the bytes before the
/// first NUL (or the whole buffer); nothing panics. Returns Err(what) on violation,
/// Ok(Some(tag)) for a classification statistic.
fn oracle(req: &str, resp: &str) -> Result<Option<&'static str>, String> {
    if resp == "bad-op" { return Ok(None); }
    if resp == "panic" { return Err("panicked".into()); }
    let t: Vec<&str> = req.split(' ').collect();
    let l: usize = t[2].parse().unwrap();
    let bytes = unhex(t[3]).unwrap();
    match t[1] {
        "tobytes" | "roundtrip" => {
            let name = std::str::from_utf8(&bytes).unwrap();
            match std::panic::catch_unwind(|| write(l, name).unwrap()).map_err(|_| "write panicked".to_string())? {
                Ok(buf) => {
                    if buf.len() != l { return Err("stored buffer has the wrong size".into()); }
                    if bytes.len() > l { return Err("name longer than the field accepted".into()); }
                    match std::panic::catch_unwind(|| read(l, &buf).unwrap()).map_err(|_| "read panicked".to_string())? {
                        Ok(back) if back == bytes => Ok(Some(if bytes.len() == l { "accepted.full" } else { "accepted" })),
                        Ok(back) => Err(format!("accepted name read back as {} ", tohex(&back))),
                        Err(e) => Err(format!("accepted name cannot be read back ({})", err_tag(&e))),
                    }
                }
                Err(_) => {
                    if bytes.len() > l { return Ok(Some("rejected.toolong")); }
                    // a fitting name was rejected: fine iff it really cannot be read back
                    let mut buf = vec![0u8; l];
                    buf[..bytes.len()].copy_from_slice(&bytes);
                    match read(l, &buf).unwrap() {
                        Ok(back) if back == bytes => Ok(Some("rejected.although-readable")),
                        _ => Ok(Some("rejected.unreadable")),
                    }
                }
            }
        }
        "frombytes" => {
            if let Some(hexs) = resp.strip_prefix("ok ") {
                let s = unhex(hexs).unwrap();
                let end = bytes.iter().position(|&x| x == 0).unwrap_or(bytes.len());
                if s != bytes[..end] { return Err("read is not the prefix before the first NUL".into()); }
                if std::str::from_utf8(&s).is_err() { return Err("read returned invalid UTF-8".into()); }
                Ok(Some("read.ok"))
            } else { Ok(Some("read.err")) }
        }
        _ => Ok(None),
    }
}

const CHARS: [&str; 14] = ["a", "Z", "0", "_", " ", "é", "ß", "€", "中", "\u{7ff}", "\u{800}", "\u{ffff}", "😀", "\u{10ffff}"];

/// a valid UTF-8 string of exactly `len` bytes when possible
fn name_of_len(r: &mut Rng, len: usize) -> Vec<u8> {
    let mut s: Vec<u8> = Vec::new();
    while s.len() < len {
        let c = if r.chance(2, 3) { CHARS[r.below(5) as usize] } else { *r.pick(&CHARS) };
        if s.len() + c.len() <= len { s.extend_from_slice(c.as_bytes()); } else { s.push(b'x'); }
    }
    s
}

fn gen_req(r: &mut Rng) -> String {
    let l = *r.pick(&LENS);
    let len = match r.below(8) { 0 => 0, 1 => l, 2 => l.saturating_sub(1), 3 => l + 1, 4 => l + r.range(1, 40) as usize, _ => r.below(l as u64 + 1) as usize };
    match r.below(10) {
        0..=3 => {
            let mut n = name_of_len(r, len);
            if r.chance(1, 5) && !n.is_empty() { let i = r.below(n.len() as u64) as usize; if n[i] < 0x80 { n[i] = 0; } }   // interior / trailing NUL
            format!("fstr {} {l} {}", if r.chance(1, 2) { "tobytes" } else { "roundtrip" }, tohex(&n))
        }
        4 => { // not valid UTF-8 on the write side: both sides must say bad-op
            let mut n = name_of_len(r, len.max(1)); let i = r.below(n.len() as u64) as usize; n[i] = *r.pick(&[0xc0u8, 0xff, 0x80, 0xed, 0xf5]);
            format!("fstr tobytes {l} {}", tohex(&n))
        }
        5 | 6 => { // a buffer as the write side would have produced it, possibly damaged
            let n = name_of_len(r, len.min(l));
            let mut b = vec![0u8; l]; b[..n.len()].copy_from_slice(&n);
            if r.chance(1, 3) { let i = r.below(l as u64) as usize; b[i] = *r.pick(&[0u8, 0x80, 0xbf, 0xc2, 0xe0, 0xed, 0xf0, 0xf4, 0xff, b'q']); }
            format!("fstr frombytes {l} {}", tohex(&b))
        }
        7 => { // malformed UTF-8 sequences at the end / boundary
            let seqs: [&[u8]; 12] = [&[0xc3], &[0xe2, 0x82], &[0xf0, 0x9f, 0x98], &[0xed, 0xa0, 0x80], &[0xc0, 0x80], &[0xe0, 0x80, 0x80],
                &[0xf4, 0x90, 0x80, 0x80], &[0xf0, 0x80, 0x80, 0x80], &[0xed, 0x9f, 0xbf], &[0xf4, 0x8f, 0xbf, 0xbf], &[0xe0, 0xa0, 0x80], &[0xc2, 0x80]];
            let sq = *r.pick(&seqs);
            let mut b = name_of_len(r, l);
            if sq.len() <= l { let at = if r.chance(1, 2) { l - sq.len() } else { r.below((l - sq.len()) as u64 + 1) as usize }; b[at..at + sq.len()].copy_from_slice(sq); }
            if r.chance(1, 3) { let i = r.below(l as u64) as usize; b[i] = 0; }
            format!("fstr frombytes {l} {}", tohex(&b))
        }
        8 => { let b: Vec<u8> = (0..l).map(|_| r.below(256) as u8).collect(); format!("fstr frombytes {l} {}", tohex(&b)) }
        _ => { // wrong buffer size / unknown length: bad-op on both sides
            let b: Vec<u8> = (0..l + 1).map(|_| b'a').collect(); format!("fstr frombytes {l} {}", tohex(&b))
        }
    }
}

fn main() {
    let cli = cli();
    let mut out = Out::new();
    std::panic::set_hook(Box::new(|_| {}));
    let reqs: Vec<String> = if cli.mode == "replay" { read_requests(cli.file.as_deref().unwrap()) } else {
        let mut r = Rng::new(cli.seed);
        (0..cli.n).map(|_| gen_req(&mut r)).collect()
    };
    for req in reqs {
        // program-side ops belong to the second harness (h_store/c35p); corpus files are shared by prefix
        let op1 = req.split(' ').nth(1).unwrap_or(""); if op1 == "rolescn" || op1 == "tcupd" || op1.starts_with("w.") { continue; }
        let resp = exec(&req);
        out.stat(&format!("op.{}", req.split(' ').nth(1).unwrap_or("?")));
        out.stat(&format!("resp.{}", resp.split(' ').take(if resp.starts_with("ok") { 1 } else { 2 }).collect::<Vec<_>>().join("")));
        if resp != "bad-op" {
            match std::panic::catch_unwind(|| oracle(&req, &resp)) {
                Ok(Ok(Some(tag))) => { out.stat("oracle.checked"); out.stat(&format!("class.{tag}")); }
                Ok(Ok(None)) => out.stat("oracle.none"),
                Ok(Err(what)) => out.oracle_fail(&what, &req),
                Err(_) => out.oracle_fail("oracle panicked", &req),
            }
        }
        let nt = resp.starts_with("ok ") && resp != "ok _";
        out.case_nt(&req, &resp, nt);
    }
    out.finish();
}
