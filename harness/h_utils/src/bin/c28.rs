//! C28 correspondence + oracle + malformed-bytes search: the real `decode_full_report`,
//! `report::decode`, `decode_compressed_full_report` and `PriceFeedPrice::from_chainlink_report`.
use gmsol_chainlink_datastreams::report::{decode, decode_compressed_full_report, decode_full_report};
use gmsol_chainlink_datastreams::utils::Compressor;
use gmsol_chainlink_datastreams::{Error as ClError, FromChainlinkReport};
use gmsol_utils::price::feed_price::PriceFeedPrice;
use hcommon::*;
use num_bigint::{BigInt, BigUint, Sign};

fn unhex(s: &str) -> Option<Vec<u8>> {
    if s == "_" { return Some(vec![]); }
    if s.is_empty() || s.chars().any(|c| !matches!(c, '0'..='9' | 'a'..='f')) { return None; }
    hex::decode(s).ok()
}
fn tohex(b: &[u8]) -> String { if b.is_empty() { "_".into() } else { hex::encode(b) } }

fn word_u(n: u128) -> [u8; 32] { let mut w = [0u8; 32]; w[16..].copy_from_slice(&n.to_be_bytes()); w }
/// int192 two's complement, sign-extended over the whole word
fn word_i(z: &BigInt) -> [u8; 32] {
    let b = z.to_signed_bytes_be();
    let mut w = if z.sign() == Sign::Minus { [0xffu8; 32] } else { [0u8; 32] };
    w[32 - b.len()..].copy_from_slice(&b);
    w
}

/// ABI blob of a report of schema `ver` carrying the given fields
fn build_blob(ver: u16, price: &BigInt, bid: &BigInt, ask: &BigInt, obs: u32, lu: u64, status: u32) -> Option<Vec<u8>> {
    let mut id = [0u8; 32]; id[..2].copy_from_slice(&ver.to_be_bytes()); id[31] = 7;
    let mut w: Vec<[u8; 32]> = vec![id, word_u(obs as u128), word_u(obs as u128), word_u(1), word_u(1), word_u(obs.saturating_add(60) as u128)];
    match ver {
        2 | 7 => w.push(word_i(price)),
        3 => { w.push(word_i(price)); w.push(word_i(bid)); w.push(word_i(ask)); }
        8 => { w.push(word_u(lu as u128)); w.push(word_i(price)); w.push(word_u(status as u128)); }
        11 => { w.push(word_i(price)); w.push(word_u(lu as u128)); w.push(word_i(bid)); w.push(word_u(1)); w.push(word_i(ask)); w.push(word_u(1)); w.push(word_i(price)); w.push(word_u(status as u128)); }
        _ => return None,
    }
    Some(w.concat())
}

fn full_err(e: &gmsol_chainlink_datastreams::chainlink_data_streams_report::report::base::ReportError) -> String {
    use gmsol_chainlink_datastreams::chainlink_data_streams_report::report::base::ReportError as E;
    match e {
        E::DataTooShort("Payload is too short") => "err TooShort".into(),
        E::InvalidLength("offset") => "err Offset".into(),
        E::InvalidLength("offset + WORD_SIZE overflow") => "err OffsetOverflow".into(),
        E::InvalidLength("length word out of range") => "err LengthWord".into(),
        E::InvalidLength("length_end + length overflow") => "err LengthOverflow".into(),
        E::InvalidLength("bytes data") => "err BytesData".into(),
        other => format!("err Other({other})"),
    }
}

/// Some(resp) for modelled ops (diffed against Lean); None for search-only ops / unparsable
fn exec_inner(t: &[&str]) -> Option<String> {
    if t.len() < 2 || t[0] != "cl" { return None; }
    match (t[1], t.len()) {
        ("full", 3) => {
            let p = unhex(t[2])?;
            Some(match decode_full_report(&p) {
                Ok((ctx, blob)) => format!("ok {} {}", tohex(&ctx.concat()), tohex(blob)),
                Err(e) => full_err(&e),
            })
        }
        ("head", 3) => {
            // the in-repo head of `report::decode`: feed id, version, dispatch
            use gmsol_chainlink_datastreams::report::DecodeError;
            let p = unhex(t[2])?;
            Some(match decode(&p) {
                Err(DecodeError::UnsupportedVersion(v)) => format!("unsupported {v}"),
                Err(DecodeError::Report(gmsol_chainlink_datastreams::chainlink_data_streams_report::report::base::ReportError::DataTooShort("feed_id"))) => "short".into(),
                _ => "supported".into(),
            })
        }
        ("fromreport", 9) => {
            let ver: u16 = t[2].parse().ok()?;
            let (price, bid, ask): (BigInt, BigInt, BigInt) = (t[3].parse().ok()?, t[4].parse().ok()?, t[5].parse().ok()?);
            let lim = BigInt::from(1u8) << 191usize;
            for z in [&price, &bid, &ask] { if *z < -&lim || *z >= lim { return None; } }
            let obs: u32 = t[6].parse().ok()?; let lu: u64 = t[7].parse().ok()?; let st: u32 = t[8].parse().ok()?;
            let Some(blob) = build_blob(ver, &price, &bid, &ask, obs, lu, st) else { return Some("err Decode".into()) };
            let report = match decode(&blob) { Ok(r) => r, Err(_) => return Some("err Decode".into()) };
            Some(match PriceFeedPrice::from_chainlink_report(&report) {
                Ok(p) => {
                    let b = bytemuck::bytes_of(&p);
                    let diff = u32::from_le_bytes(b[4..8].try_into().unwrap());
                    format!("ok {} {} {} {} {} {} {} {}", b[0], p.ts(), p.price(), p.min_price(), p.max_price(), diff, b[1], b[2])
                }
                Err(ClError::NegativePrice("price")) => "err NegPrice".into(),
                Err(ClError::NegativePrice("bid")) => "err NegBid".into(),
                Err(ClError::NegativePrice("ask")) => "err NegAsk".into(),
                Err(ClError::InvalidRange("ask < price")) => "err AskLtPrice".into(),
                Err(ClError::InvalidRange("price < bid")) => "err PriceLtBid".into(),
                Err(ClError::InvalidRange(_)) => "err LastUpdateAhead".into(),
                Err(ClError::Overflow("divisor_decimals")) => "err DivisorOverflow".into(),
                Err(ClError::Overflow(_)) => "err ObsOverflow".into(),
                Err(e) => format!("err Other({e})"),
            })
        }
        _ => None,
    }
}

fn be(b: &[u8]) -> BigUint { BigUint::from_bytes_be(b) }

enum Verdict { Ok(&'static str), Bad(String) }

/// The property, independent of the model.
fn oracle(req: &str, resp: &str) -> Verdict {
    if resp == "panic" { return Verdict::Bad("panicked".into()); }
    let t: Vec<&str> = req.split(' ').collect();
    match t[1] {
        "full" => {
            let p = unhex(t[2]).unwrap();
            let Some(rest) = resp.strip_prefix("ok ") else { return Verdict::Ok("full.err") };
            let mut it = rest.split(' ');
            let ctx = unhex(it.next().unwrap()).unwrap(); let blob = unhex(it.next().unwrap()).unwrap();
            if p.len() < 128 || ctx != p[..96] { return Verdict::Bad("context is not the first three words".into()); }
            // what the ABI says: offset and length are 32-byte big-endian integers
            let abi_off = be(&p[96..128]);
            let plen = BigUint::from(p.len());
            let abi_slice: Option<Vec<u8>> = (|| {
                if &abi_off + 32u8 > plen { return None; }
                let off = usize::try_from(&abi_off).ok()?;
                let abi_len = be(&p[off..off + 32]);
                if &abi_off + 32u8 + &abi_len > plen { return None; }
                let len = usize::try_from(&abi_len).ok()?;
                Some(p[off + 32..off + 32 + len].to_vec())
            })();
            if abi_slice.as_deref() == Some(&blob[..]) { return Verdict::Ok("full.ok"); }
            // since /repo 3d0a82d non-zero upper bytes are rejected, so there is no tolerated class any more
            Verdict::Bad("blob is not the ABI-described slice of the payload".into())
        }
        "head" => {
            let p = unhex(t[2]).unwrap();
            let e = if p.len() < 32 { "short".to_string() } else { let v = u16::from_be_bytes([p[0], p[1]]); if [2u16, 3, 7, 8, 11].contains(&v) { "supported".into() } else { format!("unsupported {v}") } };
            if resp != e { return Verdict::Bad(format!("decode head answered {resp}, expected {e}")); }
            Verdict::Ok("head")
        }
        "fromreport" => {
            let ver: u16 = t[2].parse().unwrap();
            let (price, bid, ask): (BigInt, BigInt, BigInt) = (t[3].parse().unwrap(), t[4].parse().unwrap(), t[5].parse().unwrap());
            let (bid, ask) = if matches!(ver, 2 | 7 | 8) { (price.clone(), price.clone()) } else { (bid, ask) };
            let zero = BigInt::from(0u8);
            let Some(rest) = resp.strip_prefix("ok ") else {
                return Verdict::Ok(if price < zero || bid < zero || ask < zero { "from.rejected-negative" } else if ask < price || price < bid { "from.rejected-misordered" } else { "from.err-other" });
            };
            if price < zero || bid < zero || ask < zero { return Verdict::Bad("negative price accepted".into()); }
            if ask < price || price < bid { return Verdict::Bad("misordered bid/price/ask accepted".into()); }
            let f: Vec<BigInt> = rest.split(' ').map(|x| x.parse().unwrap()).collect();
            let (dec, p2, mn, mx) = (&f[0], &f[2], &f[3], &f[4]);
            if !(mn <= p2 && p2 <= mx) { return Verdict::Bad("bid <= price <= ask not preserved".into()); }
            let two128 = BigInt::from(1u8) << 128usize;
            if *mx >= two128 { return Verdict::Bad("stored price does not fit u128".into()); }
            let k = 18 - u32::try_from(dec).unwrap_or(99).min(18);
            if *dec > BigInt::from(18u8) { return Verdict::Bad("decimals above 18".into()); }
            let d = BigInt::from(10u8).pow(k);
            if *p2 != &price / &d || *mn != &bid / &d || *mx != &ask / &d { return Verdict::Bad("price, bid and ask are not scaled by the same power of ten".into()); }
            Verdict::Ok(if k == 0 { "from.ok" } else { "from.ok.scaled" })
        }
        _ => Verdict::Ok("none"),
    }
}

/// search-only ops: the external decoders must not panic on any bytes
fn search_only(t: &[&str]) -> Option<Result<&'static str, String>> {
    if t.len() != 3 { return None; }
    let bytes = unhex(t[2])?;
    match t[1] {
        "decode" => Some(match std::panic::catch_unwind(|| decode(&bytes).map(|r| PriceFeedPrice::from_chainlink_report(&r).is_ok())) {
            Ok(Ok(true)) => Ok("decode.ok.converted"), Ok(Ok(false)) => Ok("decode.ok.rejected"), Ok(Err(_)) => Ok("decode.err"), Err(_) => Err("report::decode / conversion panicked".to_string()) }),
        "compressed" => Some(match std::panic::catch_unwind(|| decode_compressed_full_report(&bytes).is_ok()) {
            Ok(true) => Ok("compressed.ok"), Ok(false) => Ok("compressed.err"), Err(_) => Err("decode_compressed_full_report panicked".to_string()) }),
        _ => None,
    }
}

fn rand_bytes(r: &mut Rng, n: usize) -> Vec<u8> { (0..n).map(|_| r.below(256) as u8).collect() }

fn price_triplet(r: &mut Rng) -> (BigInt, BigInt, BigInt) {
    let e18 = BigInt::from(10u8).pow(18);
    let mid: BigInt = match r.below(8) {
        0 => BigInt::from(r.below(100_000)) * &e18,
        1 => BigInt::from(r.next()) * BigInt::from(r.below(1_000_000_000)),
        2 => { let k = r.below(20) as u32; (BigInt::from(1u8) << 128usize) * BigInt::from(10u8).pow(k) + BigInt::from(r.below(5)) - 2 }   // u128 storage boundary
        3 => { let k = r.below(20) as u32; ((BigInt::from(1u8) << 128usize) - 1) * BigInt::from(10u8).pow(k) + BigInt::from(r.below(5)) - 2 }
        4 => (BigInt::from(1u8) << 191usize) - 1 - BigInt::from(r.below(3)),
        5 => BigInt::from(r.below(3)),
        _ => BigInt::from(r.u128()) >> (r.below(100) as usize),
    };
    let spread = |r: &mut Rng, m: &BigInt| -> BigInt { match r.below(4) { 0 => BigInt::from(0u8), 1 => BigInt::from(1u8), 2 => m / BigInt::from(1000u32), _ => BigInt::from(r.next() >> r.below(64)) } };
    let (mut bid, mut ask) = (&mid - spread(r, &mid), &mid + spread(r, &mid));
    let mut price = mid;
    match r.below(12) { 0 => price = -price - 1, 1 => bid = -bid - 1, 2 => ask = -ask - 1, 3 => std::mem::swap(&mut bid, &mut ask), 4 => { bid = &price + 1; } 5 => { ask = &price - 1; } _ => {} }
    let lim = BigInt::from(1u8) << 191usize;
    let clamp = |z: BigInt| if z >= lim { &lim - 1 } else if z < -&lim { -&lim } else { z };
    (clamp(price), clamp(bid), clamp(ask))
}

fn valid_full(r: &mut Rng, blob: &[u8]) -> Vec<u8> {
    let mut p = rand_bytes(r, 96);
    let gap = if r.chance(1, 4) { 32 * r.below(3) as usize } else { 0 };
    p.extend_from_slice(&word_u(128 + gap as u128));
    p.extend(rand_bytes(r, gap));
    p.extend_from_slice(&word_u(blob.len() as u128));
    p.extend_from_slice(blob);
    if r.chance(1, 3) { let pad = (32 - blob.len() % 32) % 32; p.extend(vec![0u8; pad]); }
    p
}

fn gen_req(r: &mut Rng) -> String {
    let (price, bid, ask) = price_triplet(r);
    let ver = *r.pick(&[2u16, 3, 7, 8, 11, 11, 3, 8]);
    let obs: u32 = match r.below(5) { 0 => u32::MAX - r.below(3) as u32, 1 => r.below(3) as u32, _ => 1_700_000_000 + r.below(100_000_000) as u32 };
    let obs_ns = obs as u64 * 1_000_000_000;
    let lu: u64 = match r.below(8) { 0 => obs_ns, 1 => obs_ns.saturating_add(999_999_999), 2 => obs_ns.saturating_add(1_000_000_000), 3 => obs_ns.saturating_sub(1), 4 => obs_ns.saturating_sub(r.below(4_000_000_000_000)), 5 => 0, 6 => u64::MAX - r.below(2), _ => obs_ns.saturating_sub(r.below(3) * 1_000_000_000 + r.below(2)) };
    let st: u32 = if r.chance(1, 10) { r.below(9) as u32 + if r.chance(1, 4) { 1 << 20 } else { 0 } } else if ver == 8 { r.below(3) as u32 } else { r.below(6) as u32 };
    match r.below(20) {
        0..=7 => format!("cl fromreport {ver} {price} {bid} {ask} {obs} {lu} {st}"),
        8..=13 => {
            // full reports: valid, then crafted offsets / lengths / truncations / non-zero upper bytes
            let blob_len = match r.below(4) { 0 => 0, 1 => r.below(5) as usize, _ => r.below(80) as usize };
            let blob = rand_bytes(r, blob_len);
            let mut p = valid_full(r, &blob);
            let off = u64::from_be_bytes(p[120..128].try_into().unwrap()) as usize;
            match r.below(17) {
                0 => { p[120..128].copy_from_slice(&(r.below(128)).to_be_bytes()); }                       // offset < 128
                1 => { p[120..128].copy_from_slice(&(u64::MAX - r.below(40)).to_be_bytes()); }            // offset + 32 overflows
                2 => { let pl = p.len() as u64; p[120..128].copy_from_slice(&(pl.wrapping_sub(32).wrapping_add(r.below(3)).wrapping_sub(1)).to_be_bytes()); } // length word straddles the end
                3 => { p[off + 24..off + 32].copy_from_slice(&(u64::MAX - r.below(200)).to_be_bytes()); } // length overflows
                4 => { let rem = (p.len() - off - 32) as u64; p[off + 24..off + 32].copy_from_slice(&(rem + r.below(3)).wrapping_sub(1).to_be_bytes()); } // length = remaining ± 1
                5 => { let n = r.below(p.len() as u64 + 1) as usize; p.truncate(n); }
                6 => { p = { let n = r.below(260) as usize; rand_bytes(r, n) }; }
                // single-byte corruption at EVERY one of the 32 positions of the offset word / the length word: positions 0..28 leave
                // the low bytes pointing inside the payload (the ABI-described slice then does not exist), 28..32 move the offset/length
                7 | 8 => { let i = 96 + r.below(32) as usize; p[i] = p[i].wrapping_add(1 + r.below(255) as u8); }
                9 | 10 => { let i = off + r.below(32) as usize; p[i] = p[i].wrapping_add(1 + r.below(255) as u8); }
                // offset = k·2^32 + off, k·2^64 + off, k·2^(8j) + off: values >= 2^32 / >= 2^64 whose low bytes point inside the payload
                11 | 12 => { let j = match r.below(3) { 0 => 27 - r.below(4) as usize, 1 => 23 - r.below(8) as usize, _ => r.below(28) as usize };
                    p[96 + j] = 1 + r.below(255) as u8; if r.chance(1, 3) { let j2 = r.below(28) as usize; p[96 + j2] = 1 + r.below(255) as u8; } }
                // the same for the length word
                13 | 14 => { let j = match r.below(3) { 0 => 27 - r.below(4) as usize, 1 => 23 - r.below(8) as usize, _ => r.below(28) as usize };
                    p[off + j] = 1 + r.below(255) as u8; if r.chance(1, 3) { let j2 = r.below(28) as usize; p[off + j2] = 1 + r.below(255) as u8; } }
                _ => {}
            }
            format!("cl full {}", tohex(&p))
        }
        14..=16 => {
            let mut b = build_blob(ver, &price, &bid, &ask, obs, lu, st).unwrap();
            match r.below(8) { 0 => { let n = r.below(b.len() as u64 + 1) as usize; b.truncate(n); } 1 => { let i = r.below(b.len() as u64) as usize; b[i] ^= 1 << r.below(8); }
                2 => { b[0] = r.below(256) as u8; b[1] = r.below(256) as u8; } 3 => { b = { let n = r.below(600) as usize; rand_bytes(r, n) }; } 4 => { let i = 8 * r.below((b.len() / 8) as u64) as usize; for x in &mut b[i..i + 8] { *x = 0xff; } } 5 => { b.extend({ let n = r.below(64) as usize; rand_bytes(r, n) }); } _ => {} }
            if r.chance(1, 3) { if r.chance(1, 4) { let n = r.below(40) as usize; b.truncate(n); } if b.len() >= 2 && r.chance(1, 2) { b[0] = if r.chance(1, 2) { 0 } else { r.below(256) as u8 }; b[1] = r.below(16) as u8; } return format!("cl head {}", tohex(&b)); }
            format!("cl decode {}", tohex(&b))
        }
        _ => {
            let blob = build_blob(ver, &price, &bid, &ask, obs, lu, st).unwrap();
            let full = valid_full(r, &blob);
            let mut c = Compressor::compress(&full).unwrap_or_default();
            match r.below(6) { 0 => { let n = r.below(c.len() as u64 + 1) as usize; c.truncate(n); } 1 if !c.is_empty() => { let i = r.below(c.len() as u64) as usize; c[i] ^= 1 << r.below(8); } 2 => { c = { let n = r.below(300) as usize; rand_bytes(r, n) }; }
                3 if !c.is_empty() => { c[0] = 0xff; if c.len() > 4 { c[1] = 0xff; c[2] = 0xff; c[3] = 0xff; c[4] = 0x7f; } } _ => {} }
            format!("cl compressed {}", tohex(&c))
        }
    }
}

fn main() {
    let cli = cli();
    let mut out = Out::new();
    std::panic::set_hook(Box::new(|_| {}));
    let reqs: Vec<String> = if cli.mode == "replay" { read_requests(cli.file.as_deref().unwrap()) } else {
        let mut r = Rng::new(cli.seed);
        (0..cli.n).map(|_| gen_req(&mut r)).collect()
    };
    for req in reqs {
        let t: Vec<&str> = req.split(' ').collect();
        let op = t.get(1).copied().unwrap_or("?").to_string();
        out.stat(&format!("op.{op}"));
        if let Some(res) = search_only(&t) {
            // not modelled: searched for panics only, no correspondence line
            match res { Ok(tag) => { out.stat("search.checked"); out.stat(&format!("class.{tag}")); } Err(what) => out.oracle_fail(&what, &req) }
            continue;
        }
        let resp = match std::panic::catch_unwind(|| exec_inner(&t)) { Ok(Some(s)) => s, Ok(None) => "bad-op".into(), Err(_) => "panic".into() };
        out.stat(&format!("resp.{}", resp.split(' ').take(if resp.starts_with("ok") { 1 } else { 2 }).collect::<Vec<_>>().join("")));
        if resp != "bad-op" {
            match std::panic::catch_unwind(|| oracle(&req, &resp)) {
                Ok(Verdict::Ok(tag)) => { out.stat("oracle.checked"); out.stat(&format!("class.{tag}")); }
                Ok(Verdict::Bad(what)) => out.oracle_fail(&what, &req),
                Err(_) => out.oracle_fail("oracle panicked", &req),
            }
        }
        let nt = resp.starts_with("ok ");
        out.case_nt(&req, &resp, nt);
    }
    out.finish();
}
