// shared helpers for h_utils binaries
